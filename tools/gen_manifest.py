#!/usr/bin/env python3
"""Regenerates MANIFEST.json from the per-property table below (keeps it schema-valid)."""
import json, os, sys
ROOT = os.path.dirname(os.path.dirname(os.path.abspath(__file__)))
sys.path.insert(0, ROOT)
from tools.manifest_table import CLAIMED, NOT_APPLICABLE, NOTES  # noqa

BASELINE = json.load(open('/root/.vp/BASELINE.json'))['cmd'] if os.path.exists('/root/.vp/BASELINE.json') else \
    'cd /repo && /venv/bin/python -m pytest -ra -q -p no:cacheprovider --timeout=900 --continue-on-collection-errors'

m = {
    'version': 1,
    'setup_cmd': './tools/setup.sh',
    'hooks': {
        'guard': 'PB_BSS_VERIF',
        'enable': 'no repository hook is needed: contracts are sidecar files under /verif/contracts and all observation '
                  'wraps the real functions from /verif; ./check exports PB_BSS_VERIF=1 for uniformity',
        'baseline_off_cmd': BASELINE.replace(' --junitxml=<file>', ''),
        'source_commits': [],
        'add_only': True,
    },
    'engines': [{
        'name': 'pbv', 'path': 'pbv/',
        'serves_properties': sorted(CLAIMED),
        'kind_free_text': 'contract-based deductive verification: the real pb_bss functions are executed by CPython on a '
                          'symbolic NumPy value domain (NEP-13/18 duck arrays), sidecar contracts generate verification '
                          'conditions that z3/cvc5 discharge per obligation; bounded stand-in = the same contracts checked '
                          'at run time on seeded inputs',
    }],
    'checks': [],
    'not_applicable': [{'property_id': k, 'reason': v} for k, v in sorted(NOT_APPLICABLE.items())],
    'notes': NOTES,
}
for pid in sorted(CLAIMED):
    c = CLAIMED[pid]
    m['checks'].append({
        'property_id': pid,
        'quick_cmd': './check %s --tier quick' % pid,
        'thorough_cmd': './check %s --tier thorough' % pid,
        'evidence_file': 'evidence/%s.json' % pid,
        'replay_cmd_template': './check %s --replay {path}' % pid,
        'engine': 'pbv',
        'level_claimed': {'category': c['category'], 'text': c['text'], 'design_ref': c.get('design_ref', 'DESIGN.md §4 ' + pid)},
        'level_note': c['note'],
        'technique': c['technique'],
    })
json.dump(m, open(os.path.join(ROOT, 'MANIFEST.json'), 'w'), indent=1)
try:
    import jsonschema
    jsonschema.validate(m, json.load(open('/root/.vp/MANIFEST.schema.json')))
    print('MANIFEST.json valid;', len(m['checks']), 'checks,', len(m['not_applicable']), 'not applicable')
except ImportError:
    print('written (jsonschema not available)')
