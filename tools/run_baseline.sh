#!/bin/bash
# usage: tools/run_baseline.sh [repo_dir]  -- runs the repository test suite (guard off) and compares with BASELINE.json
REPO=${1:-/repo}
OUT=$(mktemp -d /tmp/pbv_base.XXXXXX)
cd "$REPO" || exit 3
env -u PB_BSS_VERIF /venv/bin/python -m pytest -ra -q -p no:cacheprovider --timeout=900 --continue-on-collection-errors \
   -o cache_dir=$OUT/cache --junitxml=$OUT/junit.xml --cov-report= > $OUT/log.txt 2>&1
tail -1 $OUT/log.txt
/venv/bin/python - "$OUT/junit.xml" <<'PY'
import json, sys, xml.etree.ElementTree as ET
base = set(json.load(open('/root/.vp/BASELINE.json'))['stable_pass'])
passed = set()
for tc in ET.parse(sys.argv[1]).getroot().iter('testcase'):
    if not any(ch.tag in ('failure', 'error', 'skipped') for ch in tc):
        passed.add('%s::%s' % (tc.get('classname'), tc.get('name')))
missing = sorted(base - passed)
print('baseline stable_pass: %d, passing now: %d, regressions: %d' % (len(base), len(base & passed), len(missing)))
for m in missing[:20]:
    print('  REGRESSION', m)
sys.exit(1 if missing else 0)
PY
rc=$?
cd "$REPO" && rm -rf junit .coverage && git checkout -q -- coverage.xml htmlcov 2>/dev/null
rm -rf "$OUT"
exit $rc
