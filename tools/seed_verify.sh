#!/bin/bash
# usage: tools/seed_verify.sh <seed-id e.g. C10-A> <src dir with patch.diff demo.py README.md> <props to check...>
# Uses a private scratch worktree of /repo (never /repo itself):
# 1. confirms that the patch keeps the test suite green and that the demo fails with / passes without it
# 2. stores it under /verif/seeded/<seed-id>/
# 3. runs the given checks against the patched scratch tree (no evidence written) and records the outcome
set -u
ID=$1; SRC=$2; shift 2
DST=/verif/seeded/$ID
WT=/tmp/seedrun/$ID
mkdir -p $DST /tmp/seedrun
rm -rf $WT; git -C /repo worktree prune; git -C /repo worktree add -q --detach $WT HEAD || exit 3
cd $WT || exit 3
git apply --check $SRC/patch.diff || { echo "PATCH DOES NOT APPLY"; git -C /repo worktree remove --force $WT; exit 3; }
/venv/bin/python $SRC/demo.py > $DST/demo_clean.log 2>&1; CLEAN=$?
git apply $SRC/patch.diff
/venv/bin/python $SRC/demo.py > $DST/demo_patched.log 2>&1; PATCHED=$?
if [ "${SKIP_BASELINE:-0}" = "1" ]; then BASE=$(python3 -c "import json,sys; print(json.load(open('$DST/verify.json')).get('baseline','skipped'))" 2>/dev/null || echo skipped); BASE="$BASE (recorded by an earlier run of this script)"; else BASE=$(/verif/tools/run_baseline.sh $WT 2>&1 | tail -2); git apply $SRC/patch.diff 2>/dev/null; fi
git diff --stat | tail -1
echo "demo clean exit=$CLEAN patched exit=$PATCHED"; echo "$BASE"
cp $SRC/patch.diff $SRC/demo.py $DST/; cp $SRC/README.md $DST/README.agent.md 2>/dev/null
RES=""
for P in "$@"; do
  OUT=$(cd /verif && PB_BSS_REPO=$WT VERIF_REPLAY_ROOT=/tmp/seedrun/replays_$ID ./check $P --no-evidence 2>&1 | tail -400)
  RC=$(echo "$OUT" | tail -1 | sed 's/.*-> exit //')
  NV=$(echo "$OUT" | grep -c '^VIOLATION')
  FIRST=$(echo "$OUT" | grep 'failed obligation' | head -3 | cut -c1-260)
  echo "check $P: exit $RC, $NV VIOLATION lines"; echo "$FIRST"
  echo "$OUT" > $DST/check_$P.log
  RES="$RES $P:exit$RC:viol$NV"
done
echo "{\"id\": \"$ID\", \"demo_exit_clean\": $CLEAN, \"demo_exit_patched\": $PATCHED, \"baseline\": \"$(echo $BASE | tr '\n' ' ' | tr '"' "'")\", \"checks\": \"$RES\"}" > $DST/verify.json
cd /; git -C /repo worktree remove --force $WT; rm -rf /tmp/seedrun/replays_$ID
