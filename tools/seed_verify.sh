#!/bin/bash
# usage: tools/seed_verify.sh <seed-id e.g. C10-A> <src dir with patch.diff demo.py README.md> <worktree> [props to check...]
# 1. confirms in the scratch worktree that the patch keeps the test suite green and that the demo fails with / passes without it
# 2. stores it under /verif/seeded/<seed-id>/
# 3. applies it to /repo, runs the given checks (no evidence), reverts /repo
set -u
ID=$1; SRC=$2; WT=$3; shift 3
DST=/verif/seeded/$ID
mkdir -p $DST
cd $WT || exit 3
git checkout -q -- . ; rm -rf junit .coverage
git apply --check $SRC/patch.diff || { echo "PATCH DOES NOT APPLY"; exit 3; }
/venv/bin/python $SRC/demo.py > $DST/demo_clean.log 2>&1; CLEAN=$?
git apply $SRC/patch.diff
/venv/bin/python $SRC/demo.py > $DST/demo_patched.log 2>&1; PATCHED=$?
BASE=$(/verif/tools/run_baseline.sh $WT 2>&1 | tail -3)
git checkout -q -- . ; rm -rf junit .coverage
echo "demo clean exit=$CLEAN patched exit=$PATCHED"; echo "$BASE"
cp $SRC/patch.diff $SRC/demo.py $DST/; cp $SRC/README.md $DST/README.agent.md 2>/dev/null
RES=""
cd /repo && git apply $SRC/patch.diff || { echo "does not apply to /repo"; exit 3; }
for P in "$@"; do
  OUT=$(cd /verif && ./check $P --no-evidence 2>&1 | tail -400)
  RC=$(echo "$OUT" | tail -1 | sed 's/.*-> exit //')
  NV=$(echo "$OUT" | grep -c '^VIOLATION')
  FIRST=$(echo "$OUT" | grep 'failed obligation' | head -3)
  echo "check $P: exit $RC, $NV VIOLATION lines"; echo "$FIRST"
  echo "$OUT" > $DST/check_$P.log
  RES="$RES $P:exit$RC:viol$NV"
done
cd /repo && git checkout -q -- . 
echo "{\"id\": \"$ID\", \"demo_exit_clean\": $CLEAN, \"demo_exit_patched\": $PATCHED, \"baseline\": \"$(echo $BASE | tr '\n' ' ' | tr '"' "'")\", \"checks\": \"$RES\"}" > $DST/verify.json
git -C /repo status --short | head -3
