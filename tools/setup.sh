#!/bin/bash
# Builds /verif/.venv offline: Python 3.12 (from /venv) + z3-solver, cvc5, icontract, jsonschema,
# with /venv's site-packages (numpy, scipy, sklearn ...) visible through a .pth file.
set -euo pipefail
cd "$(dirname "$0")/.."
V=.venv
if [ -x "$V/bin/python" ] && "$V/bin/python" -c "import z3, numpy, scipy, jsonschema, icontract" 2>/dev/null; then
  echo "setup: $V already usable"; exit 0
fi
rm -rf "$V"
/venv/bin/python -m venv "$V"
W=/opt/veriftools/wheels
"$V/bin/pip" install -q --no-index --no-deps --find-links "$W" \
   z3-solver cvc5 icontract asttokens six jsonschema jsonschema_specifications referencing rpds_py attrs typing_extensions
SP=$("$V/bin/python" -c "import sysconfig; print(sysconfig.get_paths()['purelib'])")
echo "import site; site.addsitedir('/venv/lib/python3.12/site-packages')" > "$SP/zz_venv.pth"
"$V/bin/python" -c "import z3, numpy, scipy, jsonschema, icontract; print('setup ok', z3.get_version_string(), numpy.__version__)"
